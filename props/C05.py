"""C05 - server connection: each request answered once, in order, or the connection is closed.

spec/ServerConn.tla       implementation-shaped model of one RequestHandler connection
                          (TLC: all interleavings for small constants; ServerConnMC.tla holds the
                          alphabets; cfgs are generated here)
spec/ServerConnTrace.tla  observational property monitor over recorded executions
engine/srvkit.py          real web.Server / RequestHandler on an in-memory transport

Driver A: TLC-simulated behaviours of ServerConn rendered to bytes + scripted handlers and forced
          on the real RequestHandler one ready handle per model Step (projection compared after
          every handle: refinement, drift only).
Driver B: seeded random pipelines (depth <= 40 around MAX_MSG_QUEUE_SIZE and the resume mark) with
          malformed / hostile members, random cuts, disconnect point, handler behaviours.
Every recorded execution is judged by TLC (ServerConnTrace).
"""
from __future__ import annotations

import copy
import json
import os
import random
import re
from typing import Any, Dict, List, Optional, Tuple

from engine import srvkit, steploop
from engine.runner import Ctx
from engine.tlc import MachineryError, mktemp, run_tlc, simulate_behaviours, validate_batch

KA = 30.0        # keepalive_timeout used by the harness (virtual seconds)
LINGER = 10.0    # lingering_time


def real_cap() -> Tuple[int, int]:
    from aiohttp import web_protocol

    cap = getattr(web_protocol, "MAX_MSG_QUEUE_SIZE", None)
    if not isinstance(cap, int) or cap <= 0:
        raise MachineryError("aiohttp.web_protocol.MAX_MSG_QUEUE_SIZE not found; cannot bind C05")
    return cap, cap // 2


# ---------------------------------------------------------------- one recorded execution
class Exec:
    """One real server connection under the stepping loop; every stimulus / loop handle is an event."""

    def __init__(self, loop: steploop.StepLoop, *, mode: str = "server", eager: bool = True,
                 read_bufsize: Optional[int] = None, cap: Optional[int] = None,
                 handler_cancellation: bool = False) -> None:
        self.loop = loop
        if eager:
            srvkit.enable_eager(loop)
        else:
            loop._thread_id = None  # type: ignore[attr-defined]
        self.eager = eager
        self.mode = mode
        self.it = srvkit.IterLoop(loop)
        self.script = srvkit.Script()
        kw: Dict[str, Any] = {"keepalive_timeout": KA, "lingering_time": LINGER}
        if read_bufsize is not None:
            kw["read_bufsize"] = read_bufsize
        self.kit = srvkit.ServerKit(loop, self.script.handler, mode=mode,
                                    handler_cancellation=handler_cancellation,
                                    middlewares=(self.script.middleware,) if mode == "app" else (), **kw)
        self.esc0 = len(loop.exc_contexts)
        self.conn = self.kit.connect()
        self.script.conn = self.conn
        if cap is not None:      # scaled queue limit (driver A: the model's cap), set on the real objects
            p = self.conn.proto
            try:
                p._max_msg_queue_size = cap
                p._msg_queue_resume_size = cap // 2
                p._parser._max_msg_queue_size = cap
            except AttributeError as exc:
                raise MachineryError(f"cannot scale the message queue limit: {exc}")
        self.cap = cap if cap is not None else real_cap()[0]
        self.events: List[dict] = []
        self.items: List[dict] = []       # ground truth about the byte stream (from the generator)
        self.escs: List[dict] = []
        self.sent = 0
        self.disconnected = False
        self.closed_by_end = False
        self.nsteps = 0
        self.aligned = False
        self.step_budget = 6000
        self.conn.tr.write_budget = 256 * 1024
        self.script.entry_budget = 400
        self._model_head: Optional[str] = None
        self.segs: List[str] = []
        self.params = {"mode": mode, "eager": eager, "rb": read_bufsize, "capset": cap,
                       "hc": handler_cancellation}
        if not eager:
            self.it.settle()
        self.rec("init")

    # ---- observation
    def obs(self) -> dict:
        c = self.conn.counters()
        nesc = len(self.loop.exc_contexts) - self.esc0
        return {"w": c["w"], "d": c["d"], "closed": c["closed"], "lost": c["lost"], "paused": c["paused"],
                "idle": self.it.idle(), "hrun": len(self.script.running),
                "hin": len(self.script.entered), "hin0": self.script.unknown, "esc": nesc,
                "wp": bool(self.conn.tr.write_paused), "bud": bool(self.conn.runaway), "pop": self.conn.popped,
                "pd": bool(self.disconnected)}

    def rec(self, ev: str, n: int = 0, a: str = "") -> None:
        sub = self.conn.take_sub()
        o = self.obs()
        # new loop exception-handler calls
        ctxs = self.loop.exc_contexts[self.esc0 + len(self.escs):]
        for c in ctxs:
            exc = c.get("exception")
            self.escs.append({"at": len(self.events) + 1, "msg": str(c.get("message", ""))[:80],
                              "exc": type(exc).__name__ if exc is not None else "",
                              "dr": "data_received" in str(c.get("message", ""))})
        self.events.append({"ev": ev, "n": n, "a": a, "sub": sub, "o": o, "p": self.conn.priv()})

    # ---- stimuli (I/O handles are queued at iteration boundaries)
    def _to_boundary(self) -> None:
        while not self.it.at_boundary():
            self.step()

    def deliver(self, data: bytes) -> None:
        self._to_boundary()
        self.sent += len(data)
        self.segs.append(data.hex())
        self.it.io(self.conn.feed, data)
        self.rec("send", len(data))

    def disconnect(self, how: str = "drop") -> None:
        self._to_boundary()
        self.disconnected = True
        if how == "eof":
            self.it.io(self.conn.eof)
        else:
            self.it.io(self.conn.drop, ConnectionResetError("peer reset") if how == "reset" else None)
        self.rec("disc", 0, how)

    def go(self, rid: int) -> None:
        self._to_boundary()
        self.it.io(self.script.go, rid)
        self.rec("go", rid)

    def wpause(self) -> None:
        self._to_boundary()
        self.it.io(self.conn.pause_writing)
        self.rec("wpause")

    def wresume(self) -> None:
        self._to_boundary()
        self.it.io(self.conn.resume_writing)
        self.rec("wresume")

    def step(self) -> bool:
        if self.nsteps >= self.step_budget:
            if not self.conn.runaway:
                self.conn.runaway = "step-budget"     # does not quiesce: recorded, judged as RunawayExecution
                self.script.cancel_all()
                if not self.conn.tr.closed:
                    self.conn.tr.drop(None)
            if self.nsteps >= self.step_budget + 2000:
                self.loop._ready.clear()
                self.it.remaining = 0
                return False
        ok = self.it.step()
        if ok:
            self.nsteps += 1
            self.rec("step")
        return ok

    def settle(self, limit: int = 20000) -> None:
        n = 0
        while not self.it.idle() or not self.it.at_boundary():
            if not self.step():
                break
            n += 1
            if n > limit:
                break

    def tick(self) -> bool:
        if not self.it.idle():
            return False
        if self.it.tick():
            self.rec("tick")
            return True
        return False

    # ---- end
    def finish(self) -> None:
        """Quiesce, then end the execution: peer goes away, handlers cancelled, tasks collected."""
        self.settle()
        self.rec("end")
        self.closed_by_end = bool(self.conn.tr.closing)
        extra = srvkit.teardown(self.conn, self.script, self.it)
        self.conn.take_sub()
        for c in extra:
            msg = str(c.get("message", ""))
            if c.get("task") is not None and "destroyed" in msg:
                msg += " " + repr(c.get("task"))[:160]
            exc = c.get("exception")
            self.escs.append({"at": len(self.events) + 1, "msg": msg[:240],
                              "exc": type(exc).__name__ if exc is not None else "", "dr": False})
        self.loop.exc_contexts.clear()
        self.esc0 = 0
        o = dict(self.events[-1]["o"])
        o["esc"] = len(self.escs)
        o["closed"] = True
        o["lost"] = True
        o["hrun"] = 0
        o["idle"] = True
        o["bud"] = bool(self.conn.runaway)
        self.events.append({"ev": "teardown", "n": 0, "a": "", "sub": [], "o": o, "p": {}})

    def trace(self, src: str, extra_cfg: Optional[dict] = None) -> dict:
        wire = bytes(self.conn.tr.written)
        resps = srvkit.split_responses(
            wire, connect_ids=tuple(i["id"] for i in self.items if i.get("special") == "connect"))
        marks = self.conn.write_marks
        for r in resps:
            # handler running when the first byte of this response was written (0 = none)
            att = 0
            dat = 0
            for off, tag, deliv in marks:
                if off <= r["start"]:
                    att = tag if isinstance(tag, int) else 0
                    dat = deliv
                else:
                    break
            r["att"] = att
            r["dat"] = dat
            xi = self.script.exit_info.get(r["id"] or att) or {}
            # the handler of this response raised an HTTPException after it had produced output
            r["hxw"] = bool(xi.get("httpexc") and xi.get("wrote"))          # bytes handed to data_received when the first byte was written
        if resps and resps[-1]["fr"] == "close" and not resps[-1]["garbage"] and self.closed_by_end:
            resps[-1]["complete"] = True      # close-delimited body, and the server did close
        qlim = 0
        for itx in self.items:               # clean prefix: plain, non-terminal requests only
            if itx["k"] != "req" or itx.get("special") or itx["term"]:
                break
            qlim = itx["end"]
        alim = 0
        if self.aligned:                     # every segment held whole items / single pieces: each complete
            alim = self.items[-1]["end"] if self.items else 0      # non-junk item is one queue entry
            for itx in self.items:
                if itx["k"] == "junk" or itx.get("special"):
                    alim = itx["start"]
                    break
        cfg = {"cap": self.cap, "slack": 0 if self.eager else 1, "items": self.items, "qlim": qlim, "alim": alim,
               "runaway": self.conn.runaway,
               "resps": resps, "escs": self.escs, "wlen": len(wire), "mode": self.mode,
               "eager": self.eager, "params": self.params, "segs": self.segs,
               "plan_full": {str(k): v for k, v in self.script.plan.items()}}
        if extra_cfg:
            cfg.update(extra_cfg)
        return {"cfg": cfg, "src": src, "events": self.events}


# ---------------------------------------------------------------- stream construction (ground truth)
def add_item(items: List[dict], pieces: List[bytes], kind: str, rid: int, term: bool, special: str = "") -> None:
    start = items[-1]["end"] if items else 0
    hend = start + len(pieces[0])
    end = start + sum(len(p) for p in pieces)
    items.append({"k": kind, "id": rid, "start": start, "hend": hend, "end": end, "term": term,
                  "special": special})


# ---------------------------------------------------------------- driver B: random pipelines
BEHS_B = [("ret0", 48), ("gate", 10), ("read", 10), ("readsome", 3), ("stream", 5), ("streamself", 2),
          ("httpexc", 4), ("exc", 4), ("timeout", 3), ("partial", 2), ("partialto", 2), ("partialhx", 2),
          ("prephx", 1), ("prepto", 1), ("bodyfail", 2), ("bodyfailx", 1), ("never", 2), ("sleep", 3), ("none", 1)]


def wchoice(rng: random.Random, table: List[Tuple[Any, int]]) -> Any:
    tot = sum(w for _, w in table)
    x = rng.randrange(tot)
    for v, w in table:
        if x < w:
            return v
        x -= w
    return table[-1][0]


def gen_stream(rng: random.Random, cap: int, hostile: float, flood: bool = False
               ) -> Tuple[List[dict], List[List[bytes]], Dict[int, dict]]:
    """A pipeline: items (ground truth), their byte pieces, and the handler plan.
    flood: one busy handler, then malformed members (and a few requests) that keep arriving."""
    resume = cap // 2
    depth = wchoice(rng, [(rng.randint(1, 6), 30), (cap - 1, 6), (cap, 8), (cap + 1, 8), (cap + 2, 5),
                          (min(40, cap + 8), 8), (resume, 4), (resume + 1, 4), (rng.randint(1, 40), 27)])
    depth = max(1, min(40, depth))
    if flood:
        depth = rng.choice([cap + 2, cap + 4, 40, 40, rng.randint(cap - 2, 40)])
    items: List[dict] = []
    pieces: List[List[bytes]] = []
    plan: Dict[int, dict] = {}
    busy_first = rng.random() < 0.6       # keep the first handler busy so that the queue fills
    for i in range(1, depth + 1):
        x = rng.random()
        if flood:
            kind = "req" if i == 1 or rng.random() < 0.15 else wchoice(
                rng, [("bad", 70), ("orphan", 15), ("poisonP", 8), ("poisonF", 7)])
        elif x < hostile:
            kind = wchoice(rng, [("bad", 40), ("poisonP", 12), ("poisonF", 12), ("junk", 10), ("connect", 8),
                                 ("upgrade", 10), ("orphan", 8)])
        elif rng.random() < 0.07:
            kind = "upgrade"           # ordinary traffic too: the scripted handlers always decline
        else:
            kind = "req"
        if kind == "bad":
            p = [rng.choice(srvkit.BAD_HEADS)]
            add_item(items, p, "bad", i, True)
        elif kind == "orphan":
            p = [srvkit.UNIT]
            add_item(items, p, "bad", i, True)
        elif kind == "junk":
            p = [srvkit.JUNK if rng.random() < 0.6 else srvkit.JUNK_LF]
            add_item(items, p, "junk", i, False)
        elif kind == "poisonP":
            p = srvkit.render_request(i, target=srvkit.POISON_PARSE)
            add_item(items, p, "poisonP", i, True)
        elif kind == "poisonF":
            p = srvkit.render_request(i, target=srvkit.POISON_FACTORY)
            add_item(items, p, "poisonF", i, True)
        elif kind == "connect":
            p = srvkit.render_request(i, method="CONNECT", target="t:80")
            add_item(items, p, "req", i, True, "connect")
        elif kind == "upgrade":
            ubody = wchoice(rng, [(0, 45), (1, 35), (2, 20)])
            p = srvkit.render_request(i, upgrade=True, body=ubody, chunked=ubody > 0 and rng.random() < 0.4)
            add_item(items, p, "req", i, False, "upgrade")
        else:
            body = wchoice(rng, [(0, 70), (1, 12), (2, 10), (3, 8)])
            chunked = body > 0 and rng.random() < 0.4
            close = rng.random() < 0.04
            version = "1.0" if rng.random() < 0.05 else "1.1"
            extra: Tuple[Tuple[str, str], ...] = ()
            if version == "1.0" and rng.random() < 0.5:
                extra = (("Connection", "keep-alive"),)
            if body > 0 and version == "1.1" and rng.random() < 0.25:
                extra = extra + (("Expect", "100-continue"),)
            if version == "1.0" and chunked:
                chunked = False
            p = srvkit.render_request(i, body=body, chunked=chunked, close=close, version=version, extra=extra)
            term = close or (version == "1.0" and not extra)
            add_item(items, p, "req", i, term)
        pieces.append(p)
        beh = wchoice(rng, BEHS_B)
        if i == 1 and busy_first and kind == "req":
            beh = rng.choice(["gate", "gate", "never", "sleep", "stream"])
        if flood:
            beh = rng.choice(["gate", "gate", "never"]) if i == 1 else wchoice(rng, [("ret0", 80), ("gate", 10), ("read", 10)])
        if kind == "req" and b" HTTP/1.0\r\n" in p[0] and beh in (
                "stream", "streamself", "partial", "partialto", "partialhx", "prephx", "prepto", "bodyfail", "bodyfailx"):
            beh = "gate"       # unsized StreamResponse to HTTP/1.0 + keep-alive is C02's subject (close-delimited)
        plan[i] = {"beh": beh, "t": float(rng.choice([1, 3, 12, 40]))}
    # a junk item turns the following item into a malformed one
    for k, itx in enumerate(items):
        if itx["k"] == "junk" and k + 1 < len(items):
            nxt = items[k + 1]
            if nxt["k"] != "junk":
                nxt["k"] = "bad"
                nxt["term"] = True
    return items, pieces, plan


def cut_stream(rng: random.Random, pieces: List[List[bytes]], mode: Optional[str] = None) -> List[bytes]:
    data = b"".join(b"".join(p) for p in pieces)
    mode = mode or wchoice(rng, [("one", 25), ("items", 20), ("pieces", 15), ("random", 30), ("groups", 10)])
    if mode == "one":
        return [data]
    if mode == "items":
        return [b"".join(p) for p in pieces]
    if mode == "pieces":
        return [x for p in pieces for x in p]
    if mode == "groups":
        out, k = [], 0
        flat = [b"".join(p) for p in pieces]
        while k < len(flat):
            g = rng.randint(1, 12)
            out.append(b"".join(flat[k:k + g]))
            k += g
        return out
    ncut = rng.randint(1, min(12, max(1, len(data) - 1)))
    cuts = sorted(set(rng.randrange(1, len(data)) for _ in range(ncut))) if len(data) > 1 else []
    out, prev = [], 0
    for c in cuts + [len(data)]:
        out.append(data[prev:c])
        prev = c
    return [s for s in out if s]


def random_exec(ctx: Ctx, loop: steploop.StepLoop, rng: random.Random) -> dict:
    cap, _ = real_cap()
    mode = "app" if rng.random() < 0.5 else "server"
    eager = rng.random() < 0.85
    hostile = rng.choice([0.0, 0.0, 0.03, 0.08, 0.2])
    rb = rng.choice([None, None, None, 4, 16])
    flood = rng.random() < 0.12
    x = Exec(loop, mode=mode, eager=eager, read_bufsize=rb)
    items, pieces, plan = gen_stream(rng, cap, hostile, flood)
    x.items = items
    x.script.plan = plan
    cmode = rng.choice(["items", "pieces"]) if flood else wchoice(
        rng, [("one", 22), ("items", 22), ("pieces", 18), ("random", 28), ("groups", 10)])
    segs = cut_stream(rng, pieces, cmode)
    x.aligned = cmode in ("items", "pieces")
    disc_at = rng.randint(0, len(segs) + 6) if rng.random() < (0.0 if flood else 0.25) else -1
    disc_how = rng.choice(["drop", "reset", "eof"])
    nact = 0
    k = 0
    wp = False
    for _ in range(4000):
        nact += 1
        acts: List[Tuple[str, int]] = []
        if k < len(segs) and not x.disconnected:
            acts += [("send", 0)] * 3
        if not x.it.idle() or not x.it.at_boundary():
            acts += [("step", 0)] * 4
        gated = [rid for rid in x.script.running if x.script.waiting_gate(rid)]
        if gated and not (flood and k < len(segs) and gated[0] == 1):
            acts += [("go", gated[0])] * (1 if k < len(segs) else 3)
        if x.it.idle() and x.loop.next_timer() is not None and (k >= len(segs) or rng.random() < 0.1) and not gated:
            acts.append(("tick", 0))
        if not x.disconnected and rng.random() < 0.02:
            acts.append(("wpause" if not wp else "wresume", 0))
        if disc_at >= 0 and nact >= disc_at and not x.disconnected:
            acts = [("disc", 0)]
        if not acts:
            if wp and not x.disconnected:
                acts = [("wresume", 0)]
            else:
                break
        a, arg = rng.choice(acts)
        if a == "send":
            x.deliver(segs[k])
            k += 1
        elif a == "step":
            x.step()
        elif a == "go":
            x.go(arg)
        elif a == "tick":
            x.tick()
        elif a == "disc":
            x.disconnect(disc_how)
        elif a == "wpause":
            x.wpause()
            wp = True
        elif a == "wresume":
            x.wresume()
            wp = False
    x.finish()
    return x.trace("random", {"plan": {str(i): p["beh"] for i, p in plan.items()}, "nseg": len(segs),
                              "cut": cmode, "flood": flood})


# ---------------------------------------------------------------- driver A: TLC behaviours -> real code
MICRO = {"STop", "SPop", "SExit", "SAfter", "SLing", "SLingWake", "HEnter", "HRun", "HDone"}
READ_BUFSIZE = {0: 2, 1: 4}     # model HW (units buffered before reading pauses) -> read_bufsize (unit = 5 bytes)


def item_pieces(k: int, it: dict) -> Tuple[List[bytes], str, bool, str]:
    """Byte pieces of model item k (1-based) + ground truth (kind, terminal, special)."""
    kind = it["kind"]
    close = it["ka"] == "close"
    if kind == "bad":
        return [srvkit.BAD_HEADS[0]], "bad", True, ""
    if kind == "junk":
        return [srvkit.JUNK], "junk", False, ""
    if kind == "poisonP":
        return srvkit.render_request(k, target=srvkit.POISON_PARSE), "poisonP", True, ""
    if kind == "poisonF":
        return srvkit.render_request(k, target=srvkit.POISON_FACTORY), "poisonF", True, ""
    if kind == "connect":
        return srvkit.render_request(k, method="CONNECT", target="t:80"), "req", True, "connect"
    if kind == "upgrade":
        return (srvkit.render_request(k, upgrade=True, body=it["body"], chunked=bool(it["chunked"])),
                "req", False, "upgrade")
    return (srvkit.render_request(k, body=it["body"], chunked=bool(it["chunked"]), close=close),
            "req", close, "")


def build_stream(model_items: List[dict]) -> Tuple[List[dict], List[bytes]]:
    items: List[dict] = []
    flat: List[bytes] = []
    for k, it in enumerate(model_items, start=1):
        pcs, kind, term, special = item_pieces(k, it)
        add_item(items, pcs, kind, k, term, special)
        flat += pcs
    for k, itx in enumerate(items):
        if itx["k"] == "junk" and k + 1 < len(items) and items[k + 1]["k"] != "junk":
            items[k + 1]["k"] = "bad"
            items[k + 1]["term"] = True
    return items, flat


def classify_head(x: Exec) -> str:
    """What kind of handle is at the head of the real ready queue."""
    loop = x.loop
    loop._drop_cancelled_head()
    if not loop._ready:
        return "none"
    cb = loop._ready[0]._callback
    owner = getattr(cb, "__self__", None)
    name = getattr(cb, "__name__", "")
    import asyncio as _a
    if isinstance(owner, _a.tasks._PyTask):
        return "start" if owner is x.conn.start_task else "h"
    if owner is x.conn.tr:
        return {"_call_connection_lost": "connlost", "_drain_inbox": "drain"}.get(name, "other")
    if owner is x.conn:
        return {"feed": "dr", "drop": "disc", "pause_writing": "wp", "resume_writing": "wr", "eof": "disc"}.get(name, "other")
    if owner is x.script and name == "go":
        return "go"
    if name == "_process_keepalive":
        return "t_ka"
    if name == "_on_timeout":
        return "t_lg"
    return "other"


def model_projection(st: dict) -> dict:
    c = st["c"]
    wire = st["wire"]
    return {"msgs": len(c["messages"]), "inflight": c["inFlight"], "qpaused": bool(c["qPaused"]),
            "rpaused": bool(c["rPaused"]), "paused": bool(c["tPaused"]), "closed": bool(c["tClosing"]),
            "lost": bool(c["tLost"]), "idle": len(c["ready"]) == 0,
            "nS": sum(1 for r in wire if r["t"] == "S"), "nE": sum(1 for r in wire if r["t"] == "E"),
            "hrun": 1 if (c["hid"] not in (0, 99) and c["hpc"] in ("gate", "sgate", "rd", "never")) else 0,
            "tail": c["dpos"] > c["ppos"], "fclose": bool(c["fclose"]), "close": bool(c["close"]),
            "start": c["spc"], "hxdev": bool(c.get("hxDev"))}


def real_projection(x: Exec) -> dict:
    o = x.obs()
    p = x.conn.priv()
    resps = srvkit.split_responses(bytes(x.conn.tr.written),
                                   connect_ids=tuple(i["id"] for i in x.items if i.get("special") == "connect"))
    d = {"paused": o["paused"], "closed": o["closed"], "lost": o["lost"], "idle": o["idle"], "hrun": o["hrun"],
         "nS": sum(1 for r in resps if r["status"] > 0),      # status lines seen (trailing garbage is not one)
         "nE": sum(1 for r in resps if r["complete"] and r["status"] > 0)}
    if p:
        d.update({"msgs": p["msgs"], "inflight": p["inflight"], "qpaused": p["qpaused"], "rpaused": p["rpaused"],
                  "fclose": p["fclose"], "close": p["close"]})
    return d


def compare(mp: dict, rp: dict) -> Optional[str]:
    for k in ("closed", "lost", "paused", "idle", "hrun", "nS", "nE"):
        if k in ("nS", "nE") and mp.get("hxdev"):
            continue        # the named deviation has corrupted the byte stream: responses cannot be counted
        if mp[k] != rp[k]:
            return k
    if "msgs" in rp:
        for k in ("msgs", "qpaused", "rpaused", "fclose", "close"):
            if mp[k] != rp[k] and not (mp["lost"] and k in ("qpaused", "rpaused")):
                return k
        if not mp["lost"] and mp["inflight"] != rp["inflight"]:
            return "inflight"
    return None


def replay_behaviour(ctx: Ctx, loop: steploop.StepLoop, beh: List[Any], consts: dict) -> dict:
    st0 = beh[0][1]
    model_items = st0["items"]
    final = beh[-1][1]
    x = Exec(loop, mode="server", eager=True, cap=consts["Cap"], read_bufsize=READ_BUFSIZE.get(consts["HW"]))
    items, flat = build_stream(model_items)
    x.items = items
    hb = final["c"]["hb"]
    x.script.plan = {k + 1: {"beh": (b if b != "none" else "ret0")} for k, b in enumerate(hb)}
    drift: Optional[str] = None
    npos = 0
    for label, st in beh[1:]:
        act = label.split("(")[0]
        try:
            if act in MICRO:
                pass
            elif act == "Step":
                want = None
                prev_ready = None
                # the entry the model pops is the head of the previous state's ready queue
                want = x._model_head
                while classify_head(x) == "other":
                    x.step()
                got = classify_head(x)
                if got != want:
                    drift = f"ready-order:{want}/{got}"
                    break
                x.step()
            elif act == "Deliver":
                n = int(label[label.index("(") + 1:label.index(")")])
                if not x.it.at_boundary():
                    drift = "boundary:Deliver"
                    break
                x.deliver(b"".join(flat[npos:npos + n]))
                npos += n
            elif act == "PeerDisconnect":
                if not x.it.at_boundary():
                    drift = "boundary:PeerDisconnect"
                    break
                x.disconnect("drop")
            elif act == "Go":
                x.go(st["c"]["hid"])
            elif act == "WritePause":
                x.wpause()
            elif act == "WriteResume":
                x.wresume()
            elif act == "Tick":
                if not x.tick():
                    drift = "tick:no-timer"
                    break
            else:
                raise MachineryError(f"unknown model action {label}")
        except MachineryError:
            raise
        except Exception as exc:  # noqa: BLE001
            drift = f"not-enabled:{act}:{type(exc).__name__}"
            break
        c = st["c"]
        x._model_head = c["ready"][0]["e"] if c["ready"] else None
        ctx.action_cover[act] = ctx.action_cover.get(act, 0) + 1
        if c["cpu"] == "idle":
            while classify_head(x) == "other":      # handles the model does not have (manager callbacks)
                x.step()
            mp_, rp_ = model_projection(st), real_projection(x)
            bad = compare(mp_, rp_)
            if bad:
                drift = f"state:{bad}@{act}"
                x._drift_detail = {"model": mp_, "real": rp_}
                break
    if drift:
        ctx.drift(drift.split("@")[0] if drift.startswith("state:") else drift)
        if len(ctx.extra.setdefault("drift_examples", [])) < 5:
            ctx.extra["drift_examples"].append({"drift": drift, "detail": getattr(x, "_drift_detail", None),
                                                "items": [f"{i['kind']}{i['body']}{'c' if i['chunked'] else ''}{i['ka'][0]}" for i in model_items],
                                                "plan": {k: v["beh"] for k, v in x.script.plan.items()},
                                                "actions": [l for l, _ in beh[1:]][:60]})
    # let the execution run out: open gates, fire timers
    for _ in range(200):
        x.settle()
        gated = [rid for rid in x.script.running if x.script.waiting_gate(rid)]
        if gated:
            x.go(gated[0])
            continue
        if x.conn.tr.write_paused and not x.conn.tr.closing:
            x.wresume()
            continue
        if consts.get("Timers") and x.loop.next_timer() is not None and x.tick():
            continue
        break
    x.finish()
    return x.trace("tlc-sim", {"plan": {str(k): v["beh"] for k, v in x.script.plan.items()},
                               "drift": drift or ""})


# ---------------------------------------------------------------- model configs
MODEL_CFG = """SPECIFICATION Spec
CONSTANTS
  Alphabet <- {alpha}
  Behaviours <- {beh}
  MaxItems = {n}
  Cap = {cap}
  ResumeAt = {resume}
  HW = {hw}
  Timers = {timers}
  MaxDisc = {disc}
  MaxWPause = {wp}
  MapPoisonP = {mp}
  GuardFactory = {gf}
  PoisonFAtParser = {pfp}
  LateUpgradeReset = {lur}
  GuardHXOutput = {hxg}
  ResumeOnPop = {rop}
  KA = 3
  LG = 1
VIEW View
{invs}CHECK_DEADLOCK FALSE
"""
ALL_INVS = ["TypeOK", "InOrderOnce", "QueueBound", "BadGets4xxAndClose", "NoOrphan", "NoEscape",
            "PauseCoherent", "NoStrandedTail"]


AS_CODED_INVS = ["TypeOK", "InOrderOnceAsCoded", "QueueBound", "NoOrphanAsCoded", "BadGetsAsCoded",
                 "PauseCoherentAsCoded", "NoStrandedTailAsCoded"]
IDEAL = {"mp": True, "gf": True, "pfp": False, "lur": True, "hxg": True}
AS_FOUND = {"mp": False, "gf": False, "pfp": False, "lur": False, "hxg": False}     # the snapshot the check was built on


def tla_bool(b: bool) -> str:
    return "TRUE" if b else "FALSE"


def write_cfg(alpha: str, beh: str, n: int, *, hw: int = 99, timers: bool = False, disc: int = 0, wp: int = 0,
              ideal: bool = True, rop: bool = True, cap: int = 2, invs: Optional[List[str]] = None,
              view: bool = True, design: Optional[dict] = None) -> Tuple[str, dict]:
    """ideal=True: the intended design; ideal=False: `design` (or the code as found) = what probe_code() saw."""
    dz = dict(IDEAL) if ideal else dict(design or AS_FOUND)
    dz.setdefault("lur", True)
    dz.setdefault("hxg", True)
    d = mktemp("c05cfg")
    p = os.path.join(d, f"ServerConn_{alpha}_{beh}_{n}.cfg")
    txt = MODEL_CFG.format(alpha=alpha, beh=beh, n=n, cap=cap, resume=cap // 2, hw=hw, timers=tla_bool(timers),
                           disc=disc, wp=wp, mp=tla_bool(dz["mp"]), gf=tla_bool(dz["gf"]), pfp=tla_bool(dz["pfp"]),
                           lur=tla_bool(dz["lur"]), hxg=tla_bool(dz["hxg"]), rop=tla_bool(rop),
                           invs="".join(f"INVARIANT {i}\n" for i in (ALL_INVS if invs is None else invs)))
    if not view:
        txt = txt.replace("VIEW View\n", "")
    with open(p, "w") as f:
        f.write(txt)
    return p, {"Cap": cap, "HW": hw, "Timers": timers, "alpha": alpha, "beh": beh, "n": n}


# ---------------------------------------------------------------- judging
DEVIATIONS = {
    "NoEscape_PoisonTarget": "request-target for which yarl raises ValueError (e.g. 'http://[::1'): the exception leaves "
                             "HttpRequestParser.feed_data and RequestHandler.data_received; no 400 is sent",
    "BadGets4xxAndClose_PoisonTarget": "request-target for which yarl raises ValueError: not answered with 4xx",
    "NoOrphan_PoisonTarget": "request-target accepted by the parser whose URL makes BaseRequest.__init__ raise "
                             "(e.g. 'http://a:b/'): start() dies outside its try, request never answered, connection left open",
    "StartCrash_PoisonTarget": "start() task died with ValueError from the request factory (Task exception was never retrieved)",
    "NoOrphan_UpgradeBodyAfterResponse": "upgrade request with a body answered (declined) before its body was complete: the deferred "
                                         "upgrade takes effect afterwards and nobody switches the parser back; later requests are "
                                         "buffered in _message_tail and never answered, connection left open",
    "InOrderOnce_HTTPExceptionAfterOutput": "handler raises an HTTPException after prepare()/write(): the except-HTTPException branch of "
                                            "_handle_request has no 'output already started' guard; a second status line is written "
                                            "inside the started (chunked) response and the connection is kept alive",
}


def slim(t: dict) -> dict:
    """What TLC needs: observations only (no private projection, no sub-event strings)."""
    c = t["cfg"]
    cfg = {"cap": c["cap"], "slack": c["slack"], "qlim": c["qlim"], "alim": c.get("alim", 0), "wlen": c["wlen"],
           "items": [{"k": i["k"], "id": i["id"], "start": i["start"], "hend": i["hend"], "end": i["end"],
                      "term": i["term"], "sp": i.get("special") or ""} for i in c["items"]],
           "resps": c["resps"],
           "escs": [{"at": e["at"], "msg": e["msg"], "exc": e["exc"], "dr": e["dr"]} for e in c["escs"]]}
    # projections of the ground truth (pure functions of cfg.items and o.d), computed here once per event:
    # nh = request heads of the clean prefix handed over, ni = complete non-junk items of the aligned prefix
    hends = [i["hend"] for i in c["items"] if i["hend"] <= c["qlim"]]
    iends = [i["end"] for i in c["items"] if i["end"] <= cfg["alim"] and i["k"] != "junk"]
    for e in t["events"]:
        d = e["o"]["d"]
        e["o"]["nh"] = sum(1 for h in hends if h <= d)
        e["o"]["ni"] = sum(1 for x in iends if x <= d)
    evs = [{"ev": e["ev"], "o": {k: e["o"][k] for k in ("w", "d", "closed", "lost", "paused", "idle", "hrun", "hin", "hin0", "esc", "wp", "bud", "pop", "pd", "nh", "ni")}}
           for e in t["events"]]
    return {"cfg": cfg, "src": t["src"], "events": evs}


def signature(t: dict, v: Any) -> str:
    c = t["cfg"]
    clause = v.clause
    if clause in DEVIATIONS:
        return f"{clause}: {DEVIATIONS[clause]}"
    ev = t["events"][v.pos] if v.pos < len(t["events"]) else {}
    o = ev.get("o", {})
    parts = [clause, f"mode={c.get('mode')}", f"eager={c.get('eager')}"]
    if clause.startswith("NoEscape"):
        k = t["events"][v.pos - 1]["o"]["esc"] if v.pos > 0 else 0
        if k < len(c["escs"]):
            parts.append(f"{c['escs'][k]['exc']}: {c['escs'][k]['msg']}")
    resps = [r for r in c["resps"] if r["complete"] and r["end"] <= o.get("w", 0) and r["status"] >= 200]
    last = 0
    for r in resps:
        last = max(last, r["id"] or r["att"])
    nxt = [i for i in c["items"] if i["id"] > last and i["k"] != "junk"][:1]
    if nxt:
        parts.append(f"next-item={nxt[0]['k']}#{nxt[0]['id']}")
        beh = (c.get("plan") or {}).get(str(nxt[0]["id"]))
        if beh:
            parts.append(f"beh={beh}")
    return " ".join(parts)


def judge(ctx: Ctx, traces: List[dict], label: str) -> List[Any]:
    if not traces:
        return []
    verdicts, res = validate_batch("ServerConnTrace", "ServerConnTrace.cfg", [slim(t) for t in traces],
                                   timeout=ctx.pick(900, 3000))
    ctx.add_trace_batch(len(traces), res)
    for t, v in zip(traces, verdicts):
        key = (tuple((i["k"], i["end"] - i["start"]) for i in t["cfg"]["items"]),
               tuple(e["ev"] for e in t["events"]))
        if len(t["events"]) >= 6:
            ctx.distinct.add(hash(key))
        if not v.ok:
            ctx.violation(v.clause, signature(t, v), {"trace": t, "failed_at": v.pos, "label": label}, "trace")
    t0 = traces[0]
    ctx.sample({"src": t0["src"], "items": [[i["k"], i["id"], i["end"]] for i in t0["cfg"]["items"][:8]],
                "events": [[e["ev"], e["n"], e["sub"]] for e in t0["events"][:12]],
                "responses": [[r["id"], r["status"], r["fr"], r["complete"]] for r in t0["cfg"]["resps"][:8]]})
    return verdicts


def probe_code(loop: steploop.StepLoop) -> dict:
    """Which design does the code under test follow for hostile request-targets?  (selects the constants of
    the as-coded model only; verdicts never come from here)"""
    def one(target: str) -> Exec:
        x = Exec(loop, mode="server", eager=True)
        p1 = srvkit.render_request(1)
        p2 = srvkit.render_request(2, target=target)
        add_item(x.items, p1, "req", 1, False)
        add_item(x.items, p2, "poisonP", 2, True)
        x.deliver(b"".join(p1) + b"".join(p2))
        x.settle()
        return x
    x = one(srvkit.POISON_PARSE)
    mp = not x.conn.dr_excs
    x.finish()
    x = one(srvkit.POISON_FACTORY)
    resps = srvkit.split_responses(bytes(x.conn.tr.written))
    first_ok = any(r["id"] == 1 and r["status"] == 200 for r in resps)
    answered = any(r["status"] == 400 for r in resps)
    x.finish()
    # upgrade request with a body, declined before the body is complete; then another request
    x = Exec(loop, mode="server", eager=True)
    p1 = srvkit.render_request(1, upgrade=True, body=1)
    p2 = srvkit.render_request(2)
    x.deliver(p1[0])
    x.settle()
    x.deliver(p1[1])
    x.settle()
    x.deliver(p2[0])
    x.settle()
    lur = any(r["id"] == 2 for r in srvkit.split_responses(bytes(x.conn.tr.written)))
    x.finish()
    # handler raises an HTTPException after it has started its response
    x = Exec(loop, mode="server", eager=True)
    x.script.plan = {1: {"beh": "partialhx"}}
    x.deliver(b"".join(srvkit.render_request(1)))
    x.settle()
    hxg = bytes(x.conn.tr.written).count(b"HTTP/1.1 ") <= 1
    x.finish()
    return {"mp": mp, "gf": answered and first_ok, "pfp": answered and not first_ok, "lur": lur, "hxg": hxg}


def model_phase(ctx: Ctx) -> None:
    # (alphabet, behaviours, items, HW, timers, disconnects, write pauses)
    models = ctx.pick(
        [("AlphaQueue", "BehQueue", 4, 99, False, 1, 0),
         ("AlphaPipe", "BehAll", 2, 0, False, 0, 0),
         ("AlphaHostile", "BehFast", 2, 0, False, 1, 0)],
        [("AlphaQueue", "BehQueue", 4, 99, False, 1, 1),
         ("AlphaPipe", "BehAll", 2, 0, True, 1, 1),
         ("AlphaPipe", "BehFast", 3, 0, False, 1, 0),
         ("AlphaBody", "BehBody", 3, 1, False, 1, 0),
         ("AlphaBody", "BehBody", 2, 0, True, 1, 1),
         ("AlphaHostile", "BehFast", 3, 0, False, 1, 0),
         ("AlphaHostile", "BehFast", 2, 0, True, 1, 1)])
    for (alpha, beh, n, hw, timers, disc, wp) in models:
        cfg, _ = write_cfg(alpha, beh, n, hw=hw, timers=timers, disc=disc, wp=wp)
        res = run_tlc("ServerConnMC", cfg, workers=16, timeout=ctx.pick(400, 3000), deadlock=False)
        name = f"ServerConn({alpha},{beh},items<={n},cap=2,HW={hw},timers={timers},disc<={disc},wpause<={wp})"
        ok = ctx.expect_model_ok(name, res)
        ctx.log(f"model {name}: {res.distinct} distinct / {res.generated} generated, ok={ok}, {res.wall_s:.0f}s")
    design = ctx.extra["code_design"]
    # hostile request-targets: the ideal design satisfies everything ...
    n = ctx.pick(2, 3)
    cfg, _ = write_cfg("AlphaPoison", "BehFast", n, disc=1, ideal=True)
    res = run_tlc("ServerConnMC", cfg, workers=16, timeout=ctx.pick(400, 3000), deadlock=False)
    ok = ctx.expect_model_ok(f"ServerConn[ideal](AlphaPoison,BehFast,items<={n})", res)
    ctx.log(f"model[ideal] AlphaPoison: {res.distinct} distinct, ok={ok}, {res.wall_s:.0f}s")
    # ... the code as it is satisfies everything except the named deviations it still has ...
    if not design_is_ideal(design):
        todo = []
        if not (design["mp"] and (design["gf"] or design["pfp"])):
            todo.append(("AlphaPoison", "BehFast", n))
        if not design["lur"]:
            todo.append(("AlphaUpgrade", "BehFast", ctx.pick(2, 3)))
        if not design["hxg"]:
            todo.append(("AlphaPipe", "BehOut", ctx.pick(2, 3)))
        for alpha, bh, k in todo:
            cfg, _ = write_cfg(alpha, bh, k, hw=0, disc=1, ideal=False, design=design, invs=AS_CODED_INVS)
            res = run_tlc("ServerConnMC", cfg, workers=16, timeout=ctx.pick(400, 3000), deadlock=False)
            ok = ctx.expect_model_ok(f"ServerConn[as-coded]({alpha},{bh},items<={k})", res)
            ctx.log(f"model[as-coded] {alpha}: {res.distinct} distinct, ok={ok}, {res.wall_s:.0f}s")
    # ... and TLC exhibits each deviation in the as-coded model
    from engine import tlc as _t
    for inv, clause, present, alpha, k in (
            ("NoEscapeDR", "NoEscape_PoisonTarget", not design["mp"], "AlphaPoison", 1),
            ("NoEscapeTask", "NoOrphan_PoisonTarget", not (design["gf"] or design["pfp"]), "AlphaPoison", 1),
            ("NoLateUpgrade", "NoOrphan_UpgradeBodyAfterResponse", not design["lur"], "AlphaUpgrade", 2),
            ("InOrderOnce", "InOrderOnce_HTTPExceptionAfterOutput", not design["hxg"], "AlphaTiny", 1)):
        if not present:
            ctx.notes.append(f"{clause}: the code under test does not show this deviation (probe)")
            continue
        cfg, _ = write_cfg(alpha, "BehOut" if alpha == "AlphaTiny" else "BehFast", k, ideal=False, design=design,
                           invs=[inv])
        res = run_tlc("ServerConnMC", cfg, workers=4, timeout=300, deadlock=False)
        _t.require_clean(res, f"ServerConn[as-coded,{inv}]")
        ctx.add_model(f"ServerConn[as-coded,{inv}]({alpha},items<={k})", res, exhaustive=False)
        if res.violated == inv:
            steps = " ".join(a for a, _ in res.trace[1:])
            kinds = [i["kind"] + ("+body" if i["body"] else "") for i in res.trace[0][1].get("items", [])] if res.trace else []
            ctx.violation(clause, f"{clause}: {DEVIATIONS[clause]} [model: items={kinds} {steps}]",
                          {"model_trace": [(a, st) for a, st in res.trace]}, "model")
        elif res.violated:
            ctx.violation(f"model:{res.violated}", f"as-coded model: {res.violated}", {"trace": res.trace}, "model")
        else:
            ctx.notes.append(f"as-coded model no longer violates {inv}: the deviation is gone from the spec?")


def design_is_ideal(d: dict) -> bool:
    return bool(d["mp"] and (d["gf"] or d["pfp"]) and d.get("lur", True) and d.get("hxg", True))


def sim_phase(ctx: Ctx, loop: steploop.StepLoop) -> None:
    # (alphabet, behaviours, items, HW, timers, disconnects, write pauses, behaviours to replay)
    sims = ctx.pick(
        [("AlphaPipe", "BehAll", 3, 0, False, 1, 1, 110),
         ("AlphaHostile", "BehFast", 3, 0, False, 1, 0, 110),
         ("AlphaUpgrade", "BehFast", 4, 0, False, 0, 0, 100),
         ("AlphaBody", "BehBody", 3, 1, True, 1, 0, 90),
         ("AlphaPoison", "BehFast", 3, 99, False, 1, 0, 40)],
        [("AlphaPipe", "BehAll", 3, 0, False, 1, 1, 350),
         ("AlphaPipe", "BehAll", 4, 1, True, 1, 1, 350),
         ("AlphaHostile", "BehFast", 4, 0, True, 1, 1, 350),
         ("AlphaUpgrade", "BehFast", 4, 0, False, 1, 1, 300),
         ("AlphaBody", "BehBody", 3, 1, True, 1, 1, 300),
         ("AlphaBody", "BehBody", 4, 0, False, 1, 0, 250),
         ("AlphaQueue", "BehQueue", 4, 99, False, 1, 1, 250),
         ("AlphaPoison", "BehFast", 3, 0, False, 1, 0, 250)])
    design = ctx.extra["code_design"]
    ideal = design_is_ideal(design)
    traces: List[dict] = []
    for (alpha, beh, n, hw, timers, disc, wp, num) in sims:
        # the model of the code as it is (constants from the probe): the replay must not drift
        cfg, consts = write_cfg(alpha, beh, n, hw=hw, timers=timers, disc=disc, wp=wp, ideal=False, design=design,
                                invs=None if ideal else AS_CODED_INVS, view=False)
        behs, res = simulate_behaviours("ServerConnMC", cfg, num=num, depth=ctx.pick(90, 120), seed=ctx.seed,
                                        timeout=ctx.pick(300, 1500))
        if res.violated:
            ctx.violation(f"model:{res.violated}", f"simulation of ServerConn({alpha},{beh},{n}): {res.violated}",
                          {"trace": [(a, st) for a, st in res.trace]}, "model")
        for b in behs:
            traces.append(replay_behaviour(ctx, loop, b, consts))
            if len(traces) >= 1500:
                judge(ctx, traces, "tlc-sim")
                traces = []
        ctx.log(f"replayed {len(behs)} behaviours of {alpha}/{beh}/{n}; drift so far: {dict(ctx.drifts)}")
    judge(ctx, traces, "tlc-sim")


def run(ctx: Ctx) -> None:
    cap, resume = real_cap()
    ctx.rule = ("executions = (A) TLC-simulated behaviours of ServerConn rendered to bytes + scripted handlers and forced on a "
                "real RequestHandler one ready handle per model Step, (B) seeded random pipelines of depth <= 40 around "
                f"MAX_MSG_QUEUE_SIZE={cap} / resume mark {resume} with malformed and hostile members, random cuts, "
                "disconnect point, write back-pressure, timers and handler behaviours; distinct = different "
                "(item shapes, event sequence) of >= 6 events")
    ctx.assumptions = [
        "one connection; handlers are the scripted behaviours (return, gate, read, stream, HTTPException, Exception, "
        "TimeoutError, failure after partial write, never return, sleep, return None); handler_cancellation=False",
        "WebSocket upgrade is always declined by the handler (accepted upgrades are C13's subject)",
        "HTTP/1.0 keep-alive + unsized StreamResponse (close-delimited body on a kept-open connection) is not generated: C02",
        "the model uses cap 2 / resume 1, bodies <= 2 units; the real 32/16 is exercised by driver B",
        "access logging disabled; TLS not modelled",
    ]
    loop = steploop.new_loop()
    ctx.extra["code_design"] = probe_code(loop)
    ctx.log(f"hostile-target handling of the code under test: {ctx.extra['code_design']}")
    model_phase(ctx)
    sim_phase(ctx, loop)
    n = ctx.pick(800, 5000)
    batch: List[dict] = []
    for _ in range(n):
        batch.append(random_exec(ctx, loop, ctx.rng))
        if len(batch) >= 2000:
            judge(ctx, batch, "random")
            batch = []
    judge(ctx, batch, "random")
    ctx.log(f"random pipelines: {n}")
    ctx.evaluations = ctx.traces
    ctx.extra["replay_action_counts"] = dict(ctx.action_cover)
    ctx.extra["queue_cap"] = cap
    loop.uninstall()


# ---------------------------------------------------------------- re-execution from a recorded trace
def reexecute(loop: steploop.StepLoop, t: dict) -> dict:
    c = t["cfg"]
    pr = c["params"]
    x = Exec(loop, mode=pr["mode"], eager=pr["eager"], read_bufsize=pr["rb"], cap=pr["capset"],
             handler_cancellation=pr.get("hc", False))
    x.items = [dict(i) for i in c["items"]]
    x.aligned = c.get("alim", 0) > 0
    x.script.plan = {int(k): dict(v) for k, v in c["plan_full"].items()}
    segs = [bytes.fromhex(h) for h in c["segs"]]
    k = 0
    for e in t["events"]:
        ev = e["ev"]
        if ev == "send":
            x.deliver(segs[k])
            k += 1
        elif ev == "step":
            x.step()
        elif ev == "go":
            x.go(e["n"])
        elif ev == "tick":
            x.tick()
        elif ev == "disc":
            x.disconnect(e["a"] or "drop")
        elif ev == "wpause":
            x.wpause()
        elif ev == "wresume":
            x.wresume()
    x.finish()
    return x.trace("replay", {"plan": c.get("plan")})


def selftest(ctx: Ctx) -> int:
    loop = steploop.new_loop()
    ok = True
    # (ii) spec-level mutants: each must be caught by TLC
    cfg, _ = write_cfg("AlphaQueue", "BehQueue", 4, rop=False)
    res = run_tlc("ServerConnMC", cfg, workers=16, timeout=300, deadlock=False)
    print("mutant model (ResumeOnPop=FALSE: queue never resumed):", res.violated)
    ok &= res.violated in ("NoStrandedTail", "NoOrphan", "PauseCoherent")
    cfg, _ = write_cfg("AlphaPoison", "BehFast", 2, ideal=False)
    res = run_tlc("ServerConnMC", cfg, workers=16, timeout=300, deadlock=False)
    print("as-coded model with all invariants (hostile request-targets):", res.violated)
    ok &= res.violated in ("NoEscape", "NoOrphan")
    # vacuity: every action of the model fires (labels of simulated behaviours; -coverage is unusable here)
    cfg, _ = write_cfg("AlphaTiny", "BehBody", 2, hw=0, timers=True, disc=1, wp=1, view=False)
    behs, _res = simulate_behaviours("ServerConnMC", cfg, num=400, depth=90, seed=ctx.seed, timeout=300)
    seen = {l.split("(")[0] for bh in behs for l, _ in bh}
    dead = [a for a in ("Step", "STop", "SPop", "SExit", "SAfter", "SLing", "SLingWake", "HEnter", "HRun", "HDone", "Deliver",
                        "PeerDisconnect", "Go", "WritePause", "WriteResume", "Tick") if a not in seen]
    print("model actions never taken in 400 simulated behaviours:", dead)
    ok &= not dead
    # (i) trace-level: a good recorded execution, then corruptions of it
    x = Exec(loop, mode="server", eager=True)
    pcs = [srvkit.render_request(i, body=(1 if i == 2 else 0)) for i in (1, 2, 3)]
    for i, p in enumerate(pcs, start=1):
        add_item(x.items, p, "req", i, False)
    x.script.plan = {1: {"beh": "gate"}, 2: {"beh": "read"}, 3: {"beh": "stream"}}
    x.deliver(b"".join(pcs[0]) + pcs[1][0])
    x.settle()
    x.deliver(pcs[1][1] + b"".join(pcs[2]))
    x.settle()
    x.go(1)
    x.settle()
    x.go(3)
    x.settle()
    x.finish()
    good = x.trace("selftest")
    bads = []
    b = copy.deepcopy(good)                      # a response disappears from the wire
    del b["cfg"]["resps"][1]
    bads.append(("WireContiguous", b))
    b = copy.deepcopy(good)                      # responses 2 and 3 swap their owners
    b["cfg"]["resps"][1]["id"], b["cfg"]["resps"][2]["id"] = 3, 2
    b["cfg"]["resps"][1]["att"], b["cfg"]["resps"][2]["att"] = 3, 2
    bads.append(("InOrderOnce", b))
    b = copy.deepcopy(good)                      # Content-Length lies
    b["cfg"]["resps"][0]["cl"] += 1
    bads.append(("Framing", b))
    b = copy.deepcopy(good)                      # the last request is never answered, connection stays open and quiet
    last = b["cfg"]["resps"].pop()
    b["cfg"]["wlen"] = last["start"]
    for e in b["events"]:
        e["o"]["w"] = min(e["o"]["w"], last["start"])
        if e["ev"] != "teardown":
            e["o"]["hrun"] = 0 if e["o"]["w"] >= last["start"] else e["o"]["hrun"]
    bads.append(("NoOrphan", b))
    b = copy.deepcopy(good)                      # a loop exception-handler call appears
    b["cfg"]["escs"] = [{"at": 3, "msg": "Exception in callback", "exc": "KeyError", "dr": False}]
    for e in b["events"][3:]:
        e["o"]["esc"] = 1
    bads.append(("NoEscape", b))
    b = copy.deepcopy(good)                      # 40 heads accepted while nothing is handled and reading never pauses
    b["cfg"]["cap"] = 1
    bads.append(("QueueBound|Backpressure", b))
    b = copy.deepcopy(good)                      # the harness budget was exceeded (server answering in a loop)
    for e in b["events"][5:]:
        e["o"]["bud"] = True
    bads.append(("RunawayExecution", b))
    b = copy.deepcopy(good)                      # aligned segments: 3 entries accepted, none taken off a queue of 2
    b["cfg"]["cap"] = 2
    b["cfg"]["qlim"] = 0
    b["cfg"]["alim"] = b["cfg"]["items"][-1]["end"]
    for e in b["events"]:
        e["o"]["pop"] = 0
        e["o"]["paused"] = False
    bads.append(("QueueBound|Backpressure", b))
    # a malformed head (invalid UTF-8 in a non-absolute target) answered 400 + close; corruption: the
    # server closes without having written the 400
    y = Exec(loop, mode="app", eager=True)
    bad_head = srvkit.BAD_HEADS[-6]
    add_item(y.items, [bad_head], "bad", 1, True)
    y.deliver(bad_head)
    y.settle()
    y.finish()
    good2 = y.trace("selftest")
    b = copy.deepcopy(good2)
    b["cfg"]["resps"] = []
    b["cfg"]["wlen"] = 0
    for e in b["events"]:
        e["o"]["w"] = 0
    bads.append(("BadGets4xxAndClose", b))
    b = copy.deepcopy(good)                      # a status line inside a chunked body, handler had raised HTTPException
    b["cfg"]["resps"][2]["garbage"] = True
    b["cfg"]["resps"][2]["hxw"] = True
    bads.append(("InOrderOnce_HTTPExceptionAfterOutput", b))
    vs, _ = validate_batch("ServerConnTrace", "ServerConnTrace.cfg",
                           [slim(good), slim(good2)] + [slim(t) for _, t in bads])
    print("good trace 2 (400 for a malformed head):", vs[1].ok, vs[1].clause)
    ok &= vs[1].ok
    vs = [vs[0]] + vs[2:]
    print("good trace:", vs[0].ok, vs[0].clause)
    ok &= vs[0].ok
    for (want, _), v in zip(bads, vs[1:]):
        hit = (not v.ok) and v.clause in want.split("|")
        print(f"corrupted trace expecting {want}: rejected={not v.ok} clause={v.clause!r}")
        ok &= hit
    print("selftest", "passed" if ok else "FAILED")
    return 0 if ok else 2


def replay(ctx: Ctx, path: str) -> int:
    payload = json.load(open(path))
    d = payload.get("detail") or {}
    if "trace" not in d or "events" not in d.get("trace", {}):
        print(f"replay: {payload.get('clause')} is a counterexample of the bounded model (no implementation trace); "
              "its action sequence is in the file; re-run ./check C05 to reproduce it with TLC")
        return 0
    loop = steploop.new_loop()
    t = reexecute(loop, d["trace"])
    vs, _ = validate_batch("ServerConnTrace", "ServerConnTrace.cfg", [slim(t)])
    v = vs[0]
    print(f"replay: ok={v.ok} clause={v.clause!r} pos={v.pos}/{v.total}")
    if not v.ok:
        print(f"  signature={signature(t, v)}")
        print(f"VIOLATION property=C05 replay={path}")
        return 1
    return 0
